#!/venv/bin/python
"""Regenerate /verif/MANIFEST.json from the table below and validate it."""
import glob
import json
import os
import sys

VERIF = os.path.dirname(os.path.dirname(os.path.abspath(__file__)))

TRUST = (
    "Trusted base: the JAX-0.11 API translation layer (lib/build.py, lib/vcompat.py; exact string rewrites of 14 "
    "lines + 5 namespace shims, everything else is /repo's own text), numpy/scipy float64 as reference arithmetic, "
    "CPU backend, default float32."
)

# property -> (category, technique, text, design_ref, extra note)
HELD = " Held = no disagreement on the executions listed in evidence; it says nothing about programs/inputs outside the generated corpus."
CHECKS = {
    "C01": ("exploration", "runtime monitor: generated program corpus vs independent float64 reference interpreter; probe-site events; exhaustive outcome-script enumeration for discrete programs",
            "Generated programs of the modelling language are executed (assess, log_density, seed(simulate); eager, jit, vmap over keys) and every result is compared with an independent reference interpreter; probe sites log the parameters each site saw; for small discrete programs the exact pmf of simulate is obtained by enumerating all outcome scripts." + HELD, "DESIGN §4 C01", ""),
    "C02": ("exploration", "runtime monitor: constraint-subset sweep vs reference interpreter; probe-site events; exact E[exp(weight)] by outcome-script enumeration",
            "For each generated program generate is run with none/all/single/random constraint subsets; constrained values, coherence, weight (= reference log-probs of constrained addresses), conditional-prior parameters of unconstrained sites and, on discrete programs, exact unbiasedness are decided against the reference." + HELD, "DESIGN §4 C02", ""),
    "C03": ("exploration", "runtime monitor: update moves (argument changes incl. Cond switches x constraint subsets) vs reference density ratio; discard round trip",
            "update is run on simulated traces with unchanged/perturbed arguments and constraint subsets; weight = visible density ratio, kept values bitwise, discard = old visible values, round trip restores choices with negated weight, Trace.update agrees." + HELD, "DESIGN §4 C03", ""),
    "C04": ("exploration", "runtime monitor: selection-expression sweep vs set-of-leaf-paths reference; probe-site events; exact conditional law by outcome-script enumeration",
            "regenerate is run with selection expressions over each program's address tree under same/changed arguments: definedness, coherence, unselected bitwise, fresh draws with conditional-prior parameters (site events), MH weight, discard, and on discrete programs the exact law of the resampled part." + HELD, "DESIGN §4 C04", ""),
    "C05": ("exploration", "history monitor: random operation sequences with an invariant oracle (reference interpreter) after every step",
            "Random histories of update/regenerate/mh/mala/hmc/vectorize-resample-index/jit round trips are applied; after every step coherence, recorded args, observed addresses, telescoping of update weights and the handler-stack invariant are checked; operation-bigram coverage is measured." + HELD, "DESIGN §4 C05", ""),
    "C06": ("exploration", "runtime monitor: repeat / perturbing-history / fault-injection differential testing of seeded functions; invariant hooks on global_counter and handler_stack",
            "Seeded functions are re-evaluated after perturbing call histories (unseeded draws, other programs, other avals, failing GFI calls) and under jit/vmap; outputs must be bit-identical resp. transform-stable; hidden state is hooked; held sample bindings are driven through every history of call forms (positional / keyword names / shapes) and compared with a fresh binding; constructs seed does not interpret must be refused or still be pure in the key." + HELD, "DESIGN §4 C06", ""),
    "C07": ("exploration", "runtime monitor: per-run distinctness of equally parameterised draws and of observed sub-keys; calibrated independence tests over key batches",
            "Programs whose sites share parameters at every structural position are run under seed; draws and observed sub-keys must be pairwise distinct per run, and KS / Fisher-z / contingency tests over key batches (family-wise false alarm <= 1e-9) bound dependence." + HELD, "DESIGN §4 C07", ""),
    "C08": ("exploration", "runtime monitor: per-lane eager evaluation as reference for modular_vmap outputs; probe-site events per lane; Vmap/repeat through all GFI methods vs per-lane reference interpreter",
            "Generated functions with density and sampling sites are mapped with many axis specifications and compared lane by lane with eager evaluation of the same function; probe events show one draw per lane with that lane's parameters; mapped functions contain scans (both directions), cond/switch and loops with lane-dependent control, keyword density parameters; Vmap combinator variants (int/1/-1/None axes, repeat, stacked repeat) run through simulate/assess/generate/update/regenerate." + HELD, "DESIGN §4 C08", ""),
    "C09": ("exploration", "runtime monitor with scripted kernel randomness: logged proposal noise / momentum, accept uniform scripted around the float64 reference acceptance probability; exact transition matrices by outcome-script enumeration",
            "One kernel step is executed with its internal randomness replaced by probe sites; proposals are compared with float64 reference MALA/leapfrog computations, the accept decision is bracketed just below/above the reference probability, rejected moves must be bit-identical; targets with top-level keyword arguments; latents with bounded support: a proposal that leaves the support is rejected and an accepted state lies inside it; small discrete targets (incl. mixture indicators feeding a Cond) get their full transition matrix checked for detailed balance." + HELD, "DESIGN §4 C09", ""),
    "C10": ("exploration", "runtime monitor: per-particle weight identities vs float64 reference; exact E[exp(lml)] by enumeration of all particle/ancestor outcome scripts; calibrated z-test with real samplers",
            "SMC pipelines on HMM-like models: every particle's weight increment, the site parameters each particle saw, the marginal-estimate bookkeeping; exact unbiasedness of the evidence and of weighted estimates on small instances (N<=3,T<=3) incl. rejuvenation_smc; sampled unbiasedness with MH rejuvenation; partial custom proposals (auxiliary latent); estimate(h) identity under the collection's own weights after every move." + HELD, "DESIGN §4 C10", ""),
    "C11": ("exploration", "runtime monitor: enumeration / scripted randomness of ADEV estimators vs analytic expectations and derivatives; pathwise identities; calibrated z-tests",
            "Expectation programs built from the ADEV primitives are evaluated; enumeration estimators must be exact with zero variance, reparameterised ones pathwise-exact per draw, score-function/MVD ones exact in mean over all outcomes (composed programs included); the number of noise draws a reparameterised site requests is decided against the reference; every primitive's keyed sampler (what a pure continuation runs) is tested against the law its estimator assumes." + HELD, "DESIGN §4 C11", ""),
    "C12": ("exploration", "runtime monitor with scripted resampling randomness and tagged particles; float64 breakpoint reference; exact binomial tests with real samplers",
            "resample is run on tagged particle collections with the systematic offset and categorical ancestors scripted: copies name one source, weights reset, estimate preserved, floor/ceil copies for a dense offset grid incl. all breakpoints, exact expected copies." + HELD, "DESIGN §4 C12", ""),
    "C13": ("exploration", "runtime monitor: scipy float64 reference densities under the documented parameterisation; quadrature normalisation; exact finite-n goodness-of-fit tests on seeded draws",
            "All 24 distributions (positional and keyword forms, user wrappers): logpdf on support grids, normalisation, sampler shape/dtype and goodness of fit (scalar, batched, sample_shape, modular_vmap, modular_vmap over lanes with a sample_shape) and independence of the lanes of one call, at family-wise false alarm <= 1e-9." + HELD, "DESIGN §4 C13", ""),
    "C14": ("exploration", "runtime monitor: exhaustive enumeration of sampling-site placements under JAX transformations to bounded depth, with and without seed; jaxpr scan for residual sample primitives",
            "Every placement of a sampling site under the listed constructs (depth 2 quick / 3 thorough) is executed without and with seed; without seed compilation must raise the dedicated error, with seed the result must be key-determined with no sample primitive left, or raise that error." + HELD, "DESIGN §4 C14", ""),
    "C15": ("exploration", "differential runtime testing: ADEV jvp/grad/estimate vs jax.jvp/jax.grad/f on generated deterministic programs",
            "Generated deterministic JAX programs over scalar/array/pytree arguments are pushed through expectation(f).jvp_estimate/grad_estimate/estimate and compared with JAX's own AD." + HELD, "DESIGN §4 C15", ""),
    "C16": ("exploration", "runtime monitor: set-of-leaf-paths reference model over enumerated selection expressions; observed resample/move sets",
            "Every enumerated/sampled selection expression is executed against the real match chain, Fn/Vmap/Scan/Cond filter and merge, seed(regenerate), mala and hmc, and compared with an independent Python-set interpretation of the expression; atoms and depth-1 expressions are enumerated completely, deeper ones sampled." + HELD, "DESIGN §4 C16", ""),
    "C17": ("exploration", "runtime monitor: conjugate targets with closed-form ELBO/evidence/gradients; per-draw tightness at the posterior; hooked optimiser iterations checked against the update rule; calibrated z-tests",
            "ELBO objectives on conjugate targets: estimate == log p(x) per draw at the exact posterior, calibrated mean tests otherwise, gradient means vs closed form, and every logged optimisation iteration vs params + lr*grad." + HELD, "DESIGN §4 C17", ""),
    "C18": ("exploration", "runtime monitor: complete (n_steps, burn_in, thinning) grid; slice identity against the un-thinned run of the same key; per-step kernel log",
            "For every grid point the result of chain must equal the slice [burn_in::thin] of the un-thinned run with the same key (bitwise), accepts/acceptance_rate/n_steps consistent with a per-step log of the kernel; multi-chain axes and independence." + HELD, "DESIGN §4 C18", ""),
    "C19": ("exploration", "runtime monitor: generated save/namespace/scan/vmap placements vs an independent pure-Python collector",
            "Placement specs are run as state(f), jit(state(f)), seed(state(f)), state(seed(f)) and compared with a reference that threads namespaces and stacks values itself." + HELD, "DESIGN §4 C19", ""),
    "C20": ("exploration", "runtime monitor: brute-force enumeration and dense Gaussian conditioning as oracles; exact FFBS law with scripted randomness",
            "forward_filter / kalman_filter / kalman_smoother / backward_sample and the step models are run on generated model families and compared with brute-force sums over all state sequences and dense joint-Gaussian conditioning." + HELD, "DESIGN §4 C20", ""),
}

NOT_YET = "check not built yet in this session (in progress; see DESIGN §4b build order)"


def main():
    props = [json.loads(l)["id"] for l in open(os.path.join(VERIF, "properties.jsonl"))]
    checks = []
    na = []
    for p in props:
        have = glob.glob(os.path.join(VERIF, "checks", p.lower() + "_*.py"))
        if p in CHECKS and have:
            cat, tech, text, ref, note = CHECKS[p]
            checks.append(
                {
                    "property_id": p,
                    "quick_cmd": f"./check {p} --tier quick",
                    "thorough_cmd": f"./check {p} --tier thorough",
                    "evidence_file": f"/verif/evidence/{p}.json",
                    "replay_cmd_template": f"./check {p} --replay {{path}}",
                    "engine": "genjax-runtime-monitor",
                    "level_claimed": {"category": cat, "text": text, "design_ref": ref},
                    "level_note": (note + " " if note else "") + TRUST,
                    "technique": tech,
                }
            )
        else:
            na.append({"property_id": p, "reason": NOT_YET})
    m = {
        "version": 1,
        "setup_cmd": "/venv/bin/python -m compileall -q lib checks tools && /venv/bin/python tools/selftest_harness.py",
        "hooks": {
            "guard": "GENJAX_VERIF",
            "enable": "none needed: all monitors attach from outside (probe distributions, module-attribute hooks); "
            "checks run a translated copy of /repo/src/genjax built per run by lib/build.py",
            "baseline_off_cmd": "cd /repo && /venv/bin/python -m pytest -ra -q -p no:cacheprovider --timeout=900 "
            "--continue-on-collection-errors",
            "source_commits": [],
            "add_only": True,
        },
        "engines": [
            {
                "name": "genjax-runtime-monitor",
                "path": "/verif/check",
                "serves_properties": [c["property_id"] for c in checks],
                "kind_free_text": "runtime monitoring: generated workloads executed on the real code (translated copy), "
                "probe sites / hooks record events, independent reference models decide",
            }
        ],
        "checks": checks,
        "not_applicable": na,
        "notes": "Verdicts: exit 0 held / exit 1 VIOLATION / exit 2 INCONCLUSIVE (monitor floor not reached) / exit 3 "
        "BROKEN (harness error). Known findings: /verif/known_findings.json. See DESIGN.md.",
    }
    with open(os.path.join(VERIF, "MANIFEST.json"), "w") as f:
        json.dump(m, f, indent=1)
    try:
        import jsonschema

        jsonschema.validate(m, json.load(open("/root/.vp/MANIFEST.schema.json")))
        print("MANIFEST valid;", len(checks), "checks,", len(na), "not claimed")
    except ImportError:
        import shutil
        import subprocess

        vt = shutil.which("python3-vt")
        if vt:
            r = subprocess.run([vt, "-c", "import json, jsonschema; jsonschema.validate(json.load(open('%s')), "
                                "json.load(open('/root/.vp/MANIFEST.schema.json'))); print('MANIFEST valid (python3-vt)')"
                                % os.path.join(VERIF, "MANIFEST.json")], capture_output=True, text=True)
            print((r.stdout + r.stderr).strip()[-500:])
            return r.returncode
        print("jsonschema not available; wrote MANIFEST without validation")


if __name__ == "__main__":
    sys.exit(main())
